(* C10: the same-line rule.  An `include is rejected with IncludeLine when the last item before it ended
   on its line, and an item that starts on the line of the last `include is rejected too; the line on
   which an item ends is the line of its first byte plus the line breaks before its last non-blank byte
   (trailing white space does not count, leading line breaks do).  Proofs only. *)
From SV Require Import Eval EvalFacts.
From Coq Require Import Lia.

(* ------------------------------------------------------------------ an `include behind an item *)
Lemma include_after_item c rec s p strip rd idp t l x :
  node_locate t = ROk l -> s_item x = Some (l_line l) ->
  include_enter c rec s p strip rd idp t x = RErr EIncludeLine.
Proof.
  intros Hl Hi. unfold include_enter. rewrite Hl. cbn [bind].
  replace (s_item (set_inc (Some (l_line l)) (set_skip true (skip_push t x)))) with (s_item x)
    by (unfold skip_push; destruct (leaves t); reflexivity).
  rewrite Hi, N.eqb_refl. reflexivity.
Qed.

(* no item ended on its line: the rule does not fire (whatever happens next is about the file) *)
Lemma include_alone c rec s p strip rd idp t l x :
  node_locate t = ROk l ->
  (match s_item x with Some i => i =? l_line l | None => false end) = false ->
  include_enter c rec s p strip rd idp t x <> RErr EIncludeLine \/
  exists e, include_enter c rec s p strip rd idp t x = RErr e.
Proof.
  intros Hl Hi. destruct (include_enter c rec s p strip rd idp t x) as [x'|e| | |] eqn:E; try (left; discriminate).
  right. eauto.
Qed.

(* ------------------------------------------------------------------ an item behind an `include *)
Lemma text_after_include s t l x :
  kind t = K_SourceDescriptionNotDirective -> node_locate t = ROk l -> s_inc x = Some (l_line l) ->
  trim (first_line (lstr s l)) <> [] ->
  step2 s (Enter t) x = RErr EIncludeLine.
Proof.
  intros Hk Hl Hi Hn. unfold step2. rewrite Hk. change (K_SourceDescriptionNotDirective =? K_SourceDescriptionNotDirective) with true.
  rewrite Hl. cbn [bind]. rewrite Hi, N.eqb_refl.
  destruct (trim (first_line (lstr s l))); [contradiction|reflexivity].
Qed.

Lemma directive_after_include s t l x :
  kind t = K_CompilerDirective -> node_locate t = ROk l -> s_inc x = Some (l_line l) ->
  step2 s (Enter t) x = RErr EIncludeLine.
Proof.
  intros Hk Hl Hi. unfold step2. rewrite Hk.
  change (K_CompilerDirective =? K_SourceDescriptionNotDirective) with false.
  change (K_CompilerDirective =? K_CompilerDirective) with true.
  rewrite Hl. cbn [bind]. now rewrite Hi, N.eqb_refl.
Qed.

(* white space and comments behind an `include on its line are fine *)
Lemma blank_after_include s t l x :
  kind t = K_SourceDescriptionNotDirective -> node_locate t = ROk l ->
  trim (first_line (lstr s l)) = [] ->
  step2 s (Enter t) x = ROk x.
Proof.
  intros Hk Hl Hn. unfold step2. rewrite Hk. change (K_SourceDescriptionNotDirective =? K_SourceDescriptionNotDirective) with true.
  rewrite Hl. cbn [bind]. rewrite Hn. cbn [negb]. now rewrite andb_false_r.
Qed.

(* ------------------------------------------------------------------ the line on which an item ends *)
Lemma item_line_recorded s t l x :
  kind t = K_SourceDescriptionNotDirective -> node_locate t = ROk l -> trim (lstr s l) <> [] ->
  exists x', step2 s (Leave t) x = ROk x' /\ s_item x' = Some (l_line l + count_nl (trim_end (lstr s l))).
Proof.
  intros Hk Hl Hn. unfold step2. rewrite Hk. change (K_SourceDescriptionNotDirective =? K_SourceDescriptionNotDirective) with true.
  rewrite Hl. cbn [bind]. destruct (trim (lstr s l)); [contradiction|]. eexists. split; reflexivity.
Qed.

Lemma blank_item_keeps_line s t l x :
  kind t = K_SourceDescriptionNotDirective -> node_locate t = ROk l -> trim (lstr s l) = [] ->
  step2 s (Leave t) x = ROk x.
Proof.
  intros Hk Hl Hn. unfold step2. rewrite Hk. change (K_SourceDescriptionNotDirective =? K_SourceDescriptionNotDirective) with true.
  rewrite Hl. cbn [bind]. now rewrite Hn.
Qed.

(* trailing white space does not count, everything before the last non-blank byte does -- leading line
   breaks included: for a text  a ++ [c] ++ w  with c no white space and w white space only *)
Lemma drop_while_all p w : forallb p w = true -> drop_while p w = [].
Proof. induction w as [|c w IH]; cbn; [reflexivity|]. intros H. apply andb_true_iff in H as [H1 H2]. rewrite H1. auto. Qed.

Lemma drop_while_app_all p w r : forallb p w = true -> drop_while p (w ++ r) = drop_while p r.
Proof. induction w as [|c w IH]; cbn; [reflexivity|]. intros H. apply andb_true_iff in H as [H1 H2]. rewrite H1. auto. Qed.

Lemma forallb_rev {A} (p : A -> bool) l : forallb p (rev l) = forallb p l.
Proof.
  induction l as [|a l IH]; [reflexivity|]. cbn [rev]. rewrite forallb_app, IH. cbn [forallb]. rewrite andb_true_r. apply andb_comm.
Qed.

Lemma trim_end_spec a c w : is_ws c = false -> forallb is_ws w = true -> trim_end (a ++ [c] ++ w) = a ++ [c].
Proof.
  intros Hc Hw. unfold trim_end, trim_end_by.
  replace (rev (a ++ [c] ++ w)) with (rev w ++ (c :: rev a)).
  - rewrite drop_while_app_all by (rewrite forallb_rev; exact Hw).
    cbn [drop_while]. rewrite Hc. cbn [rev]. now rewrite rev_involutive.
  - rewrite !rev_app_distr. cbn [rev app]. now rewrite <- app_assoc.
Qed.

Lemma count_nl_app a b : count_nl (a ++ b) = count_nl a + count_nl b.
Proof. unfold count_nl. rewrite filter_app, app_length. lia. Qed.

Theorem item_end_line a c w : is_ws c = false -> forallb is_ws w = true ->
  count_nl (trim_end (a ++ [c] ++ w)) = count_nl a.
Proof.
  intros Hc Hw. rewrite trim_end_spec by assumption. rewrite count_nl_app.
  unfold count_nl at 2. cbn [filter]. destruct (10 =? c) eqn:E; [|cbn; lia].
  apply N.eqb_eq in E. subst c. discriminate.
Qed.
