(* Proofs about the origin map model (Origin.v).  Main results:
     run_ops_rep      : any operation tree leaves the map as a contiguous tiling
     origin_refines   : lookup = the abstract per-byte provenance array, for every
                        operation tree and every position (C03, engine-independent part)
     range_cmp_consistent_on_tiling : the premise under which std's BTreeMap is assumed
                        to behave like the sorted association list of the model. *)
From SV Require Import Origin.
From Coq Require Import Lia.

Definition seg := (N * option (path * range))%type.

Fixpoint tile (b : N) (l : list seg) : bmap :=
  match l with
  | [] => []
  | (n, src) :: r => (mkR b (b + n), mkO (mkR b (b + n)) src) :: tile (b + n) r
  end.

Fixpoint total (l : list seg) : N :=
  match l with [] => 0 | (n, _) :: r => n + total r end.

Definition allpos (l : list seg) : Prop := Forall (fun s => 0 < fst s) l.

Definition rep (s : list seg) : ptext := mkPT (total s) (tile 0 s).

Fixpoint flat (o : op) : list seg :=
  match o with
  | Push n src => if n =? 0 then [] else [(n, src)]
  | Merge ops => (fix go (l : list op) : list seg :=
                    match l with [] => [] | x :: r => flat x ++ go r end) ops
  end.

Definition flats (ops : list op) : list seg := flat (Merge ops).

Lemma flats_cons x r : flats (x :: r) = flat x ++ flats r.
Proof. reflexivity. Qed.

(* A hand-rolled induction principle for the nested inductive [op]. *)
Section op_ind2.
  Variable P : op -> Prop.
  Hypothesis HP : forall n s, P (Push n s).
  Hypothesis HM : forall ops, Forall P ops -> P (Merge ops).
  Fixpoint op_ind2 (o : op) : P o :=
    match o with
    | Push n s => HP n s
    | Merge ops =>
        HM ops ((fix go (l : list op) : Forall P l :=
                   match l with
                   | [] => Forall_nil _
                   | x :: r => Forall_cons _ (op_ind2 x) (go r)
                   end) ops)
    end.
End op_ind2.

Lemma total_app a b : total (a ++ b) = total a + total b.
Proof. induction a as [|[n s] a IH]; cbn [total app]; lia. Qed.

Lemma allpos_app a b : allpos a -> allpos b -> allpos (a ++ b).
Proof. unfold allpos. intros. apply Forall_app; auto. Qed.

Lemma flat_allpos o : allpos (flat o).
Proof.
  induction o as [n s|ops IH] using op_ind2.
  - cbn [flat]. destruct (N.eqb_spec n 0); constructor; cbn; auto; lia.
  - cbn [flat]. induction IH as [|x r Hx _ IHr]; [constructor|].
    apply allpos_app; auto.
Qed.

Lemma tile_app b a c : tile b (a ++ c) = tile b a ++ tile (b + total a) c.
Proof.
  revert b; induction a as [|[n s] a IH]; intros b; cbn [tile total app].
  - now rewrite N.add_0_r.
  - rewrite IH. now rewrite N.add_assoc.
Qed.

(* Inserting the next range at the end of a tiling appends it. *)
Lemma insert_tile_end s : forall b n src,
  allpos s -> 0 < n ->
  bt_insert (mkR (b + total s) (b + total s + n))
            (mkO (mkR (b + total s) (b + total s + n)) src) (tile b s)
  = tile b (s ++ [(n, src)]).
Proof.
  induction s as [|[m sm] s IH]; intros b n src Hs Hn; cbn [tile total app bt_insert].
  - repeat f_equal; lia.
  - inversion Hs as [|? ? Hm Hs']; subst. cbn in Hm.
    unfold rcmp, req; cbn [rb re].
    destruct (N.leb_spec (b + (m + total s)) b); [lia|].
    destruct (N.ltb_spec (b + (m + total s)) (b + m)); [lia|].
    destruct (N.compare_spec (b + (m + total s)) b); try lia.
    f_equal.
    replace (b + (m + total s)) with (b + m + total s) by lia.
    apply IH; auto.
Qed.

Lemma push_rep s n src :
  allpos s -> pt_push true (rep s) n src = rep (s ++ (if n =? 0 then [] else [(n, src)])).
Proof.
  intros Hs. unfold pt_push, rep; cbn [pt_len pt_map andb].
  destruct (N.eqb_spec n 0) as [->|Hn].
  - now rewrite app_nil_r.
  - rewrite total_app; cbn [total]. f_equal; [lia|].
    pose proof (insert_tile_end s 0 n src Hs ltac:(lia)) as H.
    now rewrite !N.add_0_l in H.
Qed.

Lemma roffset_mk a b d : roffset (mkR a b) d = mkR (a + d) (b + d).
Proof. reflexivity. Qed.

Lemma merge_fold s1 : forall s2 done,
  allpos (s1 ++ done) -> allpos s2 ->
  fold_left (fun m kv => let '(k, o) := kv in
               bt_insert (roffset k (total s1))
                 (mkO (roffset (o_range o) (total s1)) (o_src o)) m)
            (tile (total done) s2) (tile 0 (s1 ++ done))
  = tile 0 (s1 ++ done ++ s2).
Proof.
  induction s2 as [|[n src] s2 IH]; intros done Hd H2; cbn [tile fold_left].
  - now rewrite app_nil_r.
  - inversion H2 as [|? ? Hn H2']; subst; cbn in Hn.
    cbn [o_range o_src]; rewrite !roffset_mk.
    pose proof (insert_tile_end (s1 ++ done) 0 n src Hd Hn) as H.
    rewrite !N.add_0_l in H. rewrite total_app in H.
    replace (total done + total s1) with (total s1 + total done) by lia.
    replace (total done + n + total s1) with (total s1 + total done + n) by lia.
    rewrite H. rewrite <- app_assoc.
    specialize (IH (done ++ [(n, src)])).
    rewrite total_app in IH; cbn [total] in IH.
    replace (total done + (n + 0)) with (total done + n) in IH by lia.
    rewrite IH.
    + now rewrite <- !app_assoc.
    + rewrite app_assoc. apply allpos_app; auto. constructor; auto.
    + auto.
Qed.

Lemma merge_rep s1 s2 :
  allpos s1 -> allpos s2 -> pt_merge (rep s1) (rep s2) = rep (s1 ++ s2).
Proof.
  intros H1 H2. unfold pt_merge, rep; cbn [pt_len pt_map].
  rewrite total_app. f_equal.
  pose proof (merge_fold s1 s2 [] ) as H; cbn [total app] in H.
  rewrite !app_nil_r in H. apply H; auto.
Qed.

Lemma run_op_rep o : forall s,
  allpos s -> run_op true (rep s) o = rep (s ++ flat o).
Proof.
  induction o as [n src|ops IH] using op_ind2; intros s Hs.
  - cbn [run_op flat]. now apply push_rep.
  - cbn [run_op flat].
    assert (Hin : forall l acc, Forall (fun o => forall s, allpos s ->
                     run_op true (rep s) o = rep (s ++ flat o)) l -> allpos acc ->
              (fix go (l : list op) (a : ptext) : ptext :=
                 match l with [] => a | x :: r => go r (run_op true a x) end) l (rep acc)
              = rep (acc ++ (fix go (l : list op) : list seg :=
                    match l with [] => [] | x :: r => flat x ++ go r end) l)).
    { induction l as [|x r IHl]; intros acc HF Hacc.
      - now rewrite app_nil_r.
      - inversion HF as [|? ? Hx Hr]; subst.
        rewrite Hx by auto. rewrite IHl; auto.
        + now rewrite app_assoc.
        + apply allpos_app; auto. apply flat_allpos. }
    change pt_new with (rep []).
    rewrite Hin; auto; [|constructor]. cbn [app].
    apply merge_rep; auto.
    apply (flat_allpos (Merge ops)).
Qed.

Theorem run_ops_rep ops : run_ops true ops = rep (flats ops).
Proof.
  unfold run_ops. change pt_new with (rep []).
  assert (H : forall l acc, allpos acc ->
            fold_left (run_op true) l (rep acc) = rep (acc ++ flats l)).
  { induction l as [|x r IH]; intros acc Ha; cbn [fold_left].
    - unfold flats; cbn. now rewrite app_nil_r.
    - rewrite run_op_rep by auto. rewrite IH.
      + rewrite flats_cons. now rewrite app_assoc.
      + apply allpos_app; auto. apply flat_allpos. }
  rewrite H; [reflexivity|constructor].
Qed.

(* Lookup in a tiling. *)
Definition src_res (src : option (path * range)) (i : N) : oresult :=
  match src with None => ONone | Some (p, r) => OSome p (i + rb r) end.

Fixpoint rel_lookup (s : list seg) (i : N) : oresult :=
  match s with
  | [] => ONone
  | (n, src) :: r => if i <? n then src_res src i else rel_lookup r (i - n)
  end.

Lemma get_tile s : forall b pos,
  allpos s -> b <= pos ->
  match bt_get (mkR pos (pos + 1)) (tile b s) with
  | None => rel_lookup s (pos - b) = ONone /\ b + total s <= pos
  | Some o => rb (o_range o) <= pos /\ pos < re (o_range o) /\
              rel_lookup s (pos - b) = src_res (o_src o) (pos - rb (o_range o))
  end.
Proof.
  induction s as [|[n src] s IH]; intros b pos Hs Hb; cbn [tile bt_get rel_lookup total].
  - split; [reflexivity|lia].
  - inversion Hs as [|? ? Hn Hs']; subst; cbn in Hn.
    unfold rcmp, req; cbn [rb re].
    destruct (N.leb_spec pos b).
    + assert (pos = b) by lia; subst pos.
      destruct (N.ltb_spec b (b + 1)); [|lia]. cbn [o_range o_src rb re].
      destruct (N.ltb_spec (b - b) n); [|lia]. repeat split; lia || auto.
    + destruct (N.ltb_spec pos (b + n)).
      * cbn [o_range o_src rb re]. destruct (N.ltb_spec (pos - b) n); [|lia].
        repeat split; lia || auto.
      * destruct (N.compare_spec pos b); try lia.
        destruct (N.ltb_spec (pos - b) n); [lia|].
        specialize (IH (b + n) pos Hs' ltac:(lia)).
        replace (pos - b - n) with (pos - (b + n)) by lia.
        destruct (bt_get _ _); [exact IH|].
        destruct IH; split; auto; lia.
Qed.

Lemma origin_rep s pos : allpos s -> pt_origin (rep s) pos = rel_lookup s pos.
Proof.
  intros Hs. unfold pt_origin, rep; cbn [pt_map].
  pose proof (get_tile s 0 pos Hs ltac:(lia)) as H.
  rewrite N.sub_0_r in H.
  destruct (bt_get _ _) as [o|].
  - destruct H as (H1 & H2 & H3). rewrite H3. unfold src_res.
    destruct (o_src o) as [[p r]|]; auto.
    destruct (N.ltb_spec pos (rb (o_range o))); [lia|reflexivity].
  - now destruct H.
Qed.

Lemma rel_lookup_app a : forall c i,
  rel_lookup (a ++ c) i = if i <? total a then rel_lookup a i else rel_lookup c (i - total a).
Proof.
  induction a as [|[n src] a IH]; intros c i; cbn [app rel_lookup total].
  - destruct (N.ltb_spec i 0); [lia|]. now rewrite N.sub_0_r.
  - rewrite IH.
    destruct (N.ltb_spec i n), (N.ltb_spec i (n + total a)); try lia; auto.
    + destruct (N.ltb_spec (i - n) (total a)); [|lia]. reflexivity.
    + destruct (N.ltb_spec (i - n) (total a)); [lia|]. f_equal; lia.
Qed.

Lemma rel_lookup_beyond s i : total s <= i -> rel_lookup s i = ONone.
Proof.
  revert i; induction s as [|[n src] s IH]; intros i H; cbn [rel_lookup total] in *; auto.
  destruct (N.ltb_spec i n); [lia|]. apply IH; lia.
Qed.

Lemma oplen_flat o : oplen o = total (flat o).
Proof.
  induction o as [n src|ops IH] using op_ind2; cbn [oplen flat].
  - destruct (N.eqb_spec n 0); cbn [total]; lia.
  - induction IH as [|x r Hx _ IHr]; auto. rewrite total_app. congruence.
Qed.

Lemma prov_flat o : forall i, i < oplen o -> prov_at o i = rel_lookup (flat o) i.
Proof.
  induction o as [n src|ops IH] using op_ind2; intros i Hi; cbn [prov_at flat oplen] in *.
  - destruct (N.eqb_spec n 0); [lia|]. cbn [rel_lookup].
    destruct (N.ltb_spec i n); [|lia]. destruct src as [[p r]|]; reflexivity.
  - revert i Hi. induction IH as [|x r Hx _ IHr]; intros i Hi; [lia|].
    rewrite rel_lookup_app, <- oplen_flat.
    destruct (N.ltb_spec i (oplen x)); auto. apply IHr. lia.
Qed.

(* C03, map part: for every operation tree and every position below the output length,
   the map lookup returns exactly the provenance of that byte; beyond it, nothing. *)
Theorem origin_refines ops i :
  pt_origin (run_ops true ops) i =
  if i <? oplen (Merge ops) then prov_at_ops ops i else ONone.
Proof.
  rewrite run_ops_rep, origin_rep by apply (flat_allpos (Merge ops)).
  unfold prov_at_ops, flats.
  destruct (N.ltb_spec i (oplen (Merge ops))) as [H|H].
  - symmetry. now apply prov_flat.
  - apply rel_lookup_beyond. now rewrite <- oplen_flat.
Qed.

Corollary origin_never_panics ops i : pt_origin (run_ops true ops) i <> OPanic.
Proof.
  rewrite run_ops_rep, origin_rep by apply (flat_allpos (Merge ops)).
  generalize (flats ops); intros s; revert i.
  induction s as [|[n [[p r]|]] s IH]; intros i; cbn [rel_lookup src_res];
    try destruct (i <? n); try discriminate; auto.
Qed.

Corollary run_ops_len ops : pt_len (run_ops true ops) = oplen (Merge ops).
Proof. rewrite run_ops_rep, oplen_flat. reflexivity. Qed.

(* The order premise: on a tiling plus any one-byte probe, [rcmp] is a consistent
   order: stored keys are strictly increasing, and the probe compares Gt with a prefix
   of them, then (at most once) Eq, then Lt -- so every search-tree layout finds the same
   entry as the linear scan of the model. *)
Fixpoint sorted_keys (m : bmap) : Prop :=
  match m with
  | [] => True
  | (k, _) :: m' => (forall k' v', In (k', v') m' -> rcmp k k' = Lt /\ rcmp k' k = Gt)
                    /\ sorted_keys m'
  end.

Lemma tile_keys s : forall b k v, allpos s -> In (k, v) (tile b s) ->
  b <= rb k /\ rb k < re k /\ re k <= b + total s.
Proof.
  induction s as [|[n src] s IH]; intros b k v Hs Hin; cbn [tile total In] in *; [tauto|].
  inversion Hs as [|? ? Hn Hs']; subst; cbn in Hn.
  destruct Hin as [E|Hin].
  - inversion E; subst; cbn [rb re]; lia.
  - specialize (IH _ _ _ Hs' Hin). lia.
Qed.

Theorem range_cmp_consistent_on_tiling s : forall b, allpos s -> sorted_keys (tile b s).
Proof.
  induction s as [|[n src] s IH]; intros b Hs; cbn [tile sorted_keys]; auto.
  inversion Hs as [|? ? Hn Hs']; subst; cbn in Hn. split; [|apply IH; auto].
  intros k' v' Hin. pose proof (tile_keys _ _ _ _ Hs' Hin) as (H1 & H2 & H3).
  unfold rcmp, req; cbn [rb re].
  destruct (N.leb_spec b (rb k')); [|lia].
  destruct (N.ltb_spec (rb k') (b + n)); [lia|].
  destruct (N.leb_spec (rb k') b).
  - destruct (N.ltb_spec b (re k')); [lia|].
    split; [apply N.compare_lt_iff|apply N.compare_gt_iff]; lia.
  - destruct (N.ltb_spec (rb k') (b + n)); [lia|].
    split; [apply N.compare_lt_iff|apply N.compare_gt_iff]; lia.
Qed.

Theorem probe_monotone_on_tiling s : forall b pos k1 v1 k2 v2 pre mid post,
  allpos s -> tile b s = pre ++ (k1, v1) :: mid ++ (k2, v2) :: post ->
  (rcmp (mkR pos (pos + 1)) k1 = Lt -> rcmp (mkR pos (pos + 1)) k2 = Lt) /\
  (rcmp (mkR pos (pos + 1)) k1 = Eq -> rcmp (mkR pos (pos + 1)) k2 = Lt) /\
  (rcmp (mkR pos (pos + 1)) k2 = Gt -> rcmp (mkR pos (pos + 1)) k1 = Gt).
Proof.
  intros b pos k1 v1 k2 v2 pre mid post Hs E.
  assert (Hord : re k1 <= rb k2 /\ rb k1 < re k1 /\ rb k2 < re k2).
  { revert b pre E Hs. induction s as [|[n src] s IH]; intros b pre E Hs.
    - destruct pre; discriminate.
    - inversion Hs as [|? ? Hn Hs']; subst; cbn in Hn. cbn [tile] in E.
      destruct pre as [|x pre]; cbn [app] in E.
      + inversion E as [[Ek Ev Et]]. subst k1.
        assert (Hin : In (k2, v2) (tile (b + n) s)).
        { rewrite Et. apply in_or_app. right. left. reflexivity. }
        pose proof (tile_keys _ _ _ _ Hs' Hin). cbn [rb re]. lia.
      + inversion E as [[Ex Et]]. eapply IH; eauto. }
  destruct Hord as (H1 & H2 & H3).
  unfold rcmp, req; cbn [rb re].
  repeat split; intros H;
  repeat match goal with
  | H : context [N.leb ?a ?b] |- _ => destruct (N.leb_spec a b)
  | |- context [N.leb ?a ?b] => destruct (N.leb_spec a b)
  | H : context [N.ltb ?a ?b] |- _ => destruct (N.ltb_spec a b)
  | |- context [N.ltb ?a ?b] => destruct (N.ltb_spec a b)
  end; try discriminate; try lia;
  rewrite ?N.compare_lt_iff, ?N.compare_gt_iff, ?N.compare_eq_iff in *; try lia.
Qed.
