(* Byte strings (list N) and the handful of std `str` operations the preprocessor uses:
   starts_with / ends_with / replace / trim* / slicing / decimal printing.
   Model only; facts are in BytesFacts.v. *)
From Coq Require Export List NArith Bool.
Export ListNotations.
Open Scope N_scope.

Definition bytes := list N.

Fixpoint bytes_eqb (a b : bytes) : bool :=
  match a, b with
  | [], [] => true
  | x :: a', y :: b' => (x =? y) && bytes_eqb a' b'
  | _, _ => false
  end.

Definition blen (s : bytes) : N := N.of_nat (length s).

(* &s[off .. off+len] *)
Definition slice (s : bytes) (off len : N) : bytes :=
  firstn (N.to_nat len) (skipn (N.to_nat off) s).

Fixpoint starts_with (pre s : bytes) : bool :=
  match pre, s with
  | [], _ => true
  | p :: pre', c :: s' => (p =? c) && starts_with pre' s'
  | _ :: _, [] => false
  end.

Definition ends_with (suf s : bytes) : bool := starts_with (rev suf) (rev s).

(* str::replace(pat, rep): leftmost non-overlapping matches; fuel = S (length s) suffices *)
Fixpoint replace_fuel (fuel : nat) (pat rep s : bytes) : bytes :=
  match fuel with
  | O => s
  | S f =>
      match s with
      | [] => []
      | c :: s' =>
          if starts_with pat s then rep ++ replace_fuel f pat rep (skipn (length pat) s)
          else c :: replace_fuel f pat rep s'
      end
  end.

Definition replace_all (pat rep s : bytes) : bytes :=
  match pat with
  | [] => s
  | _ => replace_fuel (S (length s)) pat rep s
  end.

(* char::is_whitespace restricted to ASCII: \t \n \v \f \r and space.  (The Unicode blanks
   U+0085, U+00A0, ... are outside the model; the generators do not produce them.) *)
Definition is_ws (c : N) : bool :=
  (c =? 9) || (c =? 10) || (c =? 11) || (c =? 12) || (c =? 13) || (c =? 32).

(* u8::is_ascii_whitespace: no \v *)
Definition is_ascii_ws (c : N) : bool :=
  (c =? 9) || (c =? 10) || (c =? 12) || (c =? 13) || (c =? 32).

Fixpoint drop_while (p : N -> bool) (s : bytes) : bytes :=
  match s with
  | [] => []
  | c :: s' => if p c then drop_while p s' else s
  end.

Definition trim_start_by (p : N -> bool) (s : bytes) : bytes := drop_while p s.
Definition trim_end_by (p : N -> bool) (s : bytes) : bytes := rev (drop_while p (rev s)).
Definition trim_by (p : N -> bool) (s : bytes) : bytes := trim_end_by p (trim_start_by p s).

Definition trim (s : bytes) : bytes := trim_by is_ws s.
Definition trim_end (s : bytes) : bytes := trim_end_by is_ws s.
Definition trim_matches (c : N) (s : bytes) : bytes := trim_by (N.eqb c) s.

Definition is_alnum (c : N) : bool :=
  ((48 <=? c) && (c <=? 57)) || ((65 <=? c) && (c <=? 90)) || ((97 <=? c) && (c <=? 122)).

(* format!("{}", n) *)
Fixpoint dec_fuel (fuel : nat) (n : N) (acc : bytes) : bytes :=
  match fuel with
  | O => acc
  | S f => let acc' := (48 + n mod 10) :: acc in
           if n <? 10 then acc' else dec_fuel f (n / 10) acc'
  end.

Definition decimal (n : N) : bytes := dec_fuel (S (N.to_nat (N.log2 n))) n [].

Fixpoint concat_bytes (l : list bytes) : bytes :=
  match l with [] => [] | x :: r => x ++ concat_bytes r end.
