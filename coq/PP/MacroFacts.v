(* C05: decision rules of resolve_text_macro_usage.  Proofs only. *)
From SV Require Import Eval EvalFacts.
From Coq Require Import Lia.

(* the value a formal receives: the actual if one is written, the default for an empty or omitted
   one, nothing for an omitted one without default *)
Definition arg_value (dflt : option bytes) (act : option (option bytes)) : option bytes :=
  match act with
  | Some (Some a) => Some a
  | Some None => Some (match dflt with Some d => d | None => [] end)
  | None => dflt
  end.

Fixpoint values (formals : list (bytes * option bytes)) (actuals : list (option bytes)) : list (option bytes) :=
  match formals with
  | [] => []
  | (_, dflt) :: fr => arg_value dflt (nth_error actuals 0) :: values fr (tl actuals)
  end.

Fixpoint first_missing (formals : list (bytes * option bytes)) (vals : list (option bytes)) : option bytes :=
  match formals, vals with
  | (n, _) :: fr, v :: vr => match v with None => Some n | Some _ => first_missing fr vr end
  | _, _ => None
  end.

Fixpoint zip_vals (formals : list (bytes * option bytes)) (vals : list (option bytes)) : list (bytes * bytes) :=
  match formals, vals with
  | (n, _) :: fr, Some v :: vr => (n, v) :: zip_vals fr vr
  | _, _ => []
  end.

Lemma bind_args_spec formals : forall actuals,
  bind_args formals actuals =
  match first_missing formals (values formals actuals) with
  | Some n => inl n
  | None => inr (zip_vals formals (values formals actuals))
  end.
Proof.
  induction formals as [|[n dflt] fr IH]; intros actuals; cbn [bind_args values first_missing zip_vals]; [reflexivity|].
  destruct actuals as [|[a|] ar]; cbn [nth_error arg_value tl].
  - destruct dflt as [d|]; [|reflexivity]. rewrite IH. cbn [tl].
    destruct (first_missing fr (values fr [])); reflexivity.
  - rewrite IH. destruct (first_missing fr (values fr ar)); reflexivity.
  - rewrite IH. destruct (first_missing fr (values fr ar)); reflexivity.
Qed.

Section Rules.
Variables (c : cfg) (rec : rec_t) (x : tree) (s : bytes) (p : path) (d : defines) (ig st : bool) (rd idp : N).
Variables (sym name : tree) (rest : list tree) (id : bytes).
Hypothesis Hc : children x = sym :: name :: rest.
Hypothesis Hi : identifier name s = Some id.
Hypothesis Hd : cfg_limit c <? rd = false.

Lemma resolve_head :
  resolve_usage c rec x s p d ig st rd idp =
  match def_get d id with
  | Some (Some df) =>
      if negb (match d_args df with [] => true | _ => false end) && (match rest with [] => true | _ => false end)
      then RErr (EDefineNoArgs (d_id df)) else
      match bind_args (d_args df) (match rest with _ :: loaa :: _ => actual_args s (children loaa) None | _ => [] end) with
      | inl a => RErr (EDefineArgNotFound a)
      | inr m =>
          match d_text df with
          | Some (body, org) =>
              do r <- rec (substitute m body ++ (match d_args df with [] => get_str_all rest s | _ => [] end)) p d ig st rd idp;
              let '(text, _, nd) := r in ROk (Some (text, org, nd))
          | None => ROk None
          end
      end
  | Some None => ROk None
  | None => RErr (EDefineNotFound id)
  end.
Proof. unfold resolve_usage. rewrite Hc. unfold unwrap_id. rewrite Hi. cbn [bind]. rewrite Hd. reflexivity. Qed.

Lemma resolve_not_found : def_get d id = None -> resolve_usage c rec x s p d ig st rd idp = RErr (EDefineNotFound id).
Proof. intros H. rewrite resolve_head, H. reflexivity. Qed.

Lemma resolve_without_body_entry : def_get d id = Some None -> resolve_usage c rec x s p d ig st rd idp = ROk None.
Proof. intros H. rewrite resolve_head, H. reflexivity. Qed.

Lemma resolve_no_args df :
  def_get d id = Some (Some df) -> d_args df <> [] -> rest = [] ->
  resolve_usage c rec x s p d ig st rd idp = RErr (EDefineNoArgs (d_id df)).
Proof. intros H Ha Hr. rewrite resolve_head, H, Hr. destruct (d_args df); [contradiction|reflexivity]. Qed.

Lemma resolve_arg_not_found df a opn loaa cls :
  def_get d id = Some (Some df) -> rest = [opn; loaa; cls] ->
  first_missing (d_args df) (values (d_args df) (actual_args s (children loaa) None)) = Some a ->
  resolve_usage c rec x s p d ig st rd idp = RErr (EDefineArgNotFound a).
Proof.
  intros H Hr Hm. rewrite resolve_head, H, Hr. cbn [negb andb].
  rewrite andb_false_r. rewrite bind_args_spec, Hm. reflexivity.
Qed.

Lemma resolve_no_body df :
  def_get d id = Some (Some df) -> d_text df = None ->
  (d_args df = [] \/ rest <> []) ->
  first_missing (d_args df) (values (d_args df)
     (match rest with _ :: loaa :: _ => actual_args s (children loaa) None | _ => [] end)) = None ->
  resolve_usage c rec x s p d ig st rd idp = ROk None.
Proof.
  intros H Ht Hs Hm. rewrite resolve_head, H.
  assert (negb (match d_args df with [] => true | _ => false end) && (match rest with [] => true | _ => false end) = false) as ->.
  { destruct Hs as [-> | Hr]; [reflexivity|]. destruct rest; [contradiction|]. apply andb_false_r. }
  rewrite bind_args_spec, Hm, Ht. reflexivity.
Qed.

(* the expansion is re-preprocessed with the table in force at the point of use *)
Lemma resolve_uses_current_table df body org m :
  def_get d id = Some (Some df) -> d_text df = Some (body, org) ->
  (d_args df = [] \/ rest <> []) ->
  bind_args (d_args df) (match rest with _ :: loaa :: _ => actual_args s (children loaa) None | _ => [] end) = inr m ->
  resolve_usage c rec x s p d ig st rd idp =
  do r <- rec (substitute m body ++ (match d_args df with [] => get_str_all rest s | _ => [] end)) p d ig st rd idp;
  let '(text, _, nd) := r in ROk (Some (text, org, nd)).
Proof.
  intros H Ht Hs Hm. rewrite resolve_head, H.
  assert (negb (match d_args df with [] => true | _ => false end) && (match rest with [] => true | _ => false end) = false) as ->.
  { destruct Hs as [-> | Hr]; [reflexivity|]. destruct rest; [contradiction|]. apply andb_false_r. }
  rewrite Hm, Ht. reflexivity.
Qed.
End Rules.
