(* Facts about the preprocessor model (Eval.v): the define table is a finite map, the
   IEEE 1800-2017 22.6 decision rule of `ifdef chains, path resolution, error rules of macro
   usages.  Proofs only; the property theorems that quote them are in Props/. *)
From SV Require Import Eval.
From Coq Require Import Lia PeanoNat Arith.

(* ------------------------------------------------------------------ bytes *)
Lemma bytes_eqb_refl a : bytes_eqb a a = true.
Proof. induction a as [|x a IH]; cbn; [reflexivity|]. now rewrite N.eqb_refl, IH. Qed.

Lemma bytes_eqb_eq a b : bytes_eqb a b = true <-> a = b.
Proof.
  revert b; induction a as [|x a IH]; intros [|y b]; cbn; split; intros H; try easy.
  - apply andb_true_iff in H as [H1 H2]. apply N.eqb_eq in H1. apply IH in H2. now subst.
  - injection H as -> ->. now rewrite N.eqb_refl, bytes_eqb_refl.
Qed.

Lemma bytes_eqb_neq a b : bytes_eqb a b = false <-> a <> b.
Proof.
  split; intros H.
  - intros E. apply bytes_eqb_eq in E. congruence.
  - destruct (bytes_eqb a b) eqn:E; [|reflexivity]. apply bytes_eqb_eq in E. contradiction.
Qed.

Lemma bytes_eqb_sym a b : bytes_eqb a b = bytes_eqb b a.
Proof.
  destruct (bytes_eqb a b) eqn:E.
  - apply bytes_eqb_eq in E. subst. now rewrite bytes_eqb_refl.
  - apply bytes_eqb_neq in E. symmetry. apply bytes_eqb_neq. congruence.
Qed.

(* ------------------------------------------------------------------ the define table is a map *)
Lemma def_get_remove_same d k : def_get (def_remove d k) k = None.
Proof.
  induction d as [|[k' v] d IH]; cbn; [reflexivity|].
  destruct (bytes_eqb k k') eqn:E; [exact IH|]. cbn. now rewrite E.
Qed.

Lemma def_get_remove_other d k k' : k <> k' -> def_get (def_remove d k) k' = def_get d k'.
Proof.
  intros N. induction d as [|[k2 v] d IH]; cbn; [reflexivity|].
  destruct (bytes_eqb k k2) eqn:E.
  - apply bytes_eqb_eq in E. subst k2.
    assert (bytes_eqb k' k = false) as -> by (apply bytes_eqb_neq; congruence). exact IH.
  - cbn. now rewrite IH.
Qed.

Lemma def_get_insert_same d k v : def_get (def_insert d k v) k = Some v.
Proof. unfold def_insert. cbn. now rewrite bytes_eqb_refl. Qed.

Lemma def_get_insert_other d k v k' : k <> k' -> def_get (def_insert d k v) k' = def_get d k'.
Proof.
  intros N. unfold def_insert. cbn.
  assert (bytes_eqb k' k = false) as -> by (apply bytes_eqb_neq; congruence).
  now apply def_get_remove_other.
Qed.

Lemma def_contains_insert d k v k' :
  def_contains (def_insert d k v) k' = bytes_eqb k k' || def_contains d k'.
Proof.
  unfold def_contains. destruct (bytes_eqb k k') eqn:E.
  - apply bytes_eqb_eq in E. subst. now rewrite def_get_insert_same.
  - apply bytes_eqb_neq in E. now rewrite def_get_insert_other.
Qed.

(* every key occurs at most once (HashMap) *)
Fixpoint keys_unique (d : defines) : Prop :=
  match d with
  | [] => True
  | (k, _) :: r => def_get r k = None /\ keys_unique r
  end.

Lemma keys_unique_remove d k : keys_unique d -> keys_unique (def_remove d k).
Proof.
  induction d as [|[k' v] d IH]; cbn; [easy|]. intros [H1 H2].
  destruct (bytes_eqb k k') eqn:E; [now apply IH|]. cbn. split; [|now apply IH].
  apply bytes_eqb_neq in E. now rewrite def_get_remove_other.
Qed.

Lemma keys_unique_insert d k v : keys_unique d -> keys_unique (def_insert d k v).
Proof. intros H. unfold def_insert. cbn. split; [apply def_get_remove_same|now apply keys_unique_remove]. Qed.

(* caller-supplied names are defined, with or without a body; so are the coverage constants *)
Lemma fold_insert_contains (f : defines -> bytes * option define -> defines) pre d0 n :
  (forall d kv, f d kv = def_insert d (fst kv) (snd kv)) ->
  def_contains (fold_left f pre d0) n = existsb (fun kv => bytes_eqb (fst kv) n) pre || def_contains d0 n.
Proof.
  intros Hf. revert d0. induction pre as [|kv pre IH]; intros d0; cbn; [reflexivity|].
  rewrite IH, Hf, def_contains_insert.
  destruct (bytes_eqb (fst kv) n), (existsb _ pre), (def_contains d0 n); reflexivity.
Qed.

Lemma seed_defines_contains pre n :
  existsb (fun kv => bytes_eqb (fst kv) n) pre = true -> def_contains (seed_defines pre) n = true.
Proof.
  intros H. unfold seed_defines. rewrite fold_insert_contains by reflexivity. now rewrite H.
Qed.

(* ------------------------------------------------------------------ 22.6: which branch survives *)
(* a typed view of the children of an IfdefDirective / IfndefDirective node *)
Record elsif_t := mkElsif { e_sym : tree; e_kw : tree; e_id : tree; e_body : tree }.
Record chain := mkChain {
  c_sym : tree; c_kw : tree; c_id : tree; c_body : tree;
  c_elsifs : list elsif_t;
  c_else : option (tree * tree * tree);     (* ` else body *)
  c_end : list tree }.                       (* ` endif : at most two nodes *)

Definition flat_elsif (e : elsif_t) : list tree := [e_sym e; e_kw e; e_id e; e_body e].
Definition chain_children (c : chain) : list tree :=
  [c_sym c; c_kw c; c_id c; c_body c] ++ flat_map flat_elsif (c_elsifs c) ++
  (match c_else c with Some (a, b, e) => [a; b; e] | None => [] end) ++ c_end c.

Definition wf_chain (c : chain) : Prop :=
  Forall (fun e => kind (e_id e) = K_TextMacroIdentifier) (c_elsifs c) /\
  (match c_else c with Some (_, _, e) => kind e = K_ElseGroupOfLines | None => True end) /\
  (length (c_end c) <= 2)%nat.

(* the name a condition tests, read from the source text *)
Definition id_of (s : bytes) (t : tree) : bytes := match identifier t s with Some x => x | None => [] end.

(* IEEE 22.6: the conditions of the chain, in order; the last [true] stands for `else *)
Definition conds (s : bytes) (d : defines) (neg : bool) (c : chain) : list bool :=
  let defd n := def_contains d n || is_predefined n in
  (if neg then negb (defd (id_of s (c_id c))) else defd (id_of s (c_id c)))
  :: map (fun e => defd (id_of s (e_id e))) (c_elsifs c).

Fixpoint first_true (l : list bool) : nat :=
  match l with [] => O | b :: r => if b then O else S (first_true r) end.

(* what must be on the skip list: every keyword/name of the chain and every body except the
   chosen one ([chosen] = index of the first true condition; = length conds selects `else) *)
Definition push_all (ts : list tree) (x : st) : st := fold_left (fun a t => skip_push t a) ts x.

Fixpoint elsif_skips (es : list elsif_t) (i chosen : nat) : list tree :=
  match es with
  | [] => []
  | e :: r => [e_kw e; e_id e] ++ (if Nat.eqb i chosen then [] else [e_body e]) ++ elsif_skips r (S i) chosen
  end.

Definition expected_skips (c : chain) (chosen : nat) : list tree :=
  [c_kw c; c_id c] ++ (if Nat.eqb O chosen then [] else [c_body c]) ++
  elsif_skips (c_elsifs c) 1 chosen ++
  (match c_else c with
   | Some (_, kw, e) => kw :: (if Nat.leb (S (length (c_elsifs c))) chosen then [] else [e])
   | None => []
   end).

(* the known class D4: the code consults is_predefined of the `ifdef name where it should
   consult the `elsif name.  Outside it the two agree. *)
Definition no_predef (s : bytes) (c : chain) : Prop :=
  is_predefined (id_of s (c_id c)) = false /\
  Forall (fun e => is_predefined (id_of s (e_id e)) = false) (c_elsifs c).

Lemma push_all_app a b x : push_all (a ++ b) x = push_all b (push_all a x).
Proof. unfold push_all. now rewrite fold_left_app. Qed.

Lemma skip_push_defs t x : s_defs (skip_push t x) = s_defs x.
Proof. unfold skip_push. destruct (leaves t); reflexivity. Qed.

Lemma unwrap_id_ok t s : identifier t s <> None -> unwrap_id t s = ROk (id_of s t).
Proof. unfold unwrap_id, id_of. destruct (identifier t s); easy. Qed.

Definition ids_present (s : bytes) (c : chain) : Prop :=
  identifier (c_id c) s <> None /\ Forall (fun e => identifier (e_id e) s <> None) (c_elsifs c).

Lemma cond_rest_spec s d ifid es els endl : forall (hit : bool) (i chosen : nat) x,
  is_predefined ifid = false ->
  Forall (fun e => kind (e_id e) = K_TextMacroIdentifier) es ->
  Forall (fun e => identifier (e_id e) s <> None) es ->
  (match els with Some (_, _, e) => kind e = K_ElseGroupOfLines | None => True end) ->
  (length endl <= 2)%nat ->
  (if hit then (chosen < i)%nat
   else chosen = (i + first_true (map (fun e => def_contains d (id_of s (e_id e))) es))%nat) ->
  cond_rest s d ifid hit
    (flat_map flat_elsif es ++ (match els with Some (a, b, e) => [a; b; e] | None => [] end) ++ endl) x =
  ROk (push_all (elsif_skips es i chosen ++
                 match els with
                 | Some (_, kw, e) => kw :: (if Nat.leb (i + length es) chosen then [] else [e])
                 | None => []
                 end) x).
Proof.
  intros hit i chosen x Hp Hk Hi He Hn. revert hit i chosen x Hk Hi.
  induction es as [|e es IH]; intros hit i chosen x Hk Hi Hc.
  - cbn [flat_map elsif_skips app map first_true length].
    destruct els as [[[a b] e]|].
    + cbn [app]. cbn [cond_rest]. rewrite He.
      change (K_ElseGroupOfLines =? K_TextMacroIdentifier) with false. cbn [andb].
      rewrite N.eqb_refl. f_equal. rewrite Nat.add_0_r.
      destruct hit.
      * assert (Nat.leb i chosen = false) as -> by (apply Nat.leb_gt; lia). reflexivity.
      * subst chosen. rewrite Nat.add_0_r, Nat.leb_refl. reflexivity.
    + cbn [app]. destruct endl as [|a [|b [|c r]]]; cbn in Hn; try lia; reflexivity.
  - inversion Hk as [|? ? Hk1 Hk2]; subst. inversion Hi as [|? ? Hi1 Hi2]; subst.
    cbn [flat_map flat_elsif app]. cbn [cond_rest]. rewrite Hk1, N.eqb_refl.
    rewrite (unwrap_id_ok _ _ Hi1). cbn [bind].
    cbn [elsif_skips]. rewrite <- !app_assoc. cbn [app].
    change (push_all (e_kw e :: e_id e :: ?r) x) with (push_all r (skip_push (e_id e) (skip_push (e_kw e) x))).
    cbn [map first_true length] in Hc. rewrite Hp, orb_false_r.
    destruct hit.
    + assert (Nat.eqb i chosen = false) as -> by (apply Nat.eqb_neq; lia). cbn [app].
      rewrite (IH true (S i) chosen) by (try assumption; lia).
      replace (S i + length es)%nat with (i + S (length es))%nat by lia. reflexivity.
    + destruct (def_contains d (id_of s (e_id e))) eqn:D.
      * subst chosen. rewrite Nat.add_0_r, Nat.eqb_refl. cbn [app].
        rewrite (IH true (S i) i) by (try assumption; lia).
        replace (S i + length es)%nat with (i + S (length es))%nat by lia. reflexivity.
      * assert (Nat.eqb i chosen = false) as -> by (apply Nat.eqb_neq; lia). cbn [app].
        rewrite (IH false (S i) chosen) by (try assumption; lia).
        replace (S i + length es)%nat with (i + S (length es))%nat by lia. reflexivity.
Qed.

Theorem cond_enter_spec neg s c x :
  wf_chain c -> ids_present s c -> no_predef s c ->
  let chosen := first_true (conds s (s_defs x) neg c) in
  cond_enter neg s (Node (if neg then K_IfndefDirective else K_IfdefDirective) (chain_children c)) x =
  ROk (push_all (expected_skips c chosen) x).
Proof.
  intros [Hk [He Hn]] [Hi0 Hi] [Hp0 Hp] chosen.
  unfold cond_enter. cbn [children]. unfold chain_children. cbn [app].
  rewrite (unwrap_id_ok _ _ Hi0). cbn [bind]. rewrite !skip_push_defs.
  unfold expected_skips. cbn [app].
  change (push_all (c_kw c :: c_id c :: ?r) x) with (push_all r (skip_push (c_id c) (skip_push (c_kw c) x))).
  subst chosen. unfold conds. rewrite Hp0, orb_false_r.
  set (d := s_defs x).
  assert (Hm : map (fun e => def_contains d (id_of s (e_id e)) || is_predefined (id_of s (e_id e))) (c_elsifs c)
               = map (fun e => def_contains d (id_of s (e_id e))) (c_elsifs c)).
  { clear -Hp. induction (c_elsifs c) as [|e es IH]; cbn; [reflexivity|].
    inversion Hp; subst. rewrite H1, orb_false_r. f_equal. now apply IH. }
  rewrite Hm. cbn [first_true].
  set (hit := if neg then negb (def_contains d (id_of s (c_id c))) else def_contains d (id_of s (c_id c))).
  destruct hit eqn:Hh.
  - cbn [Nat.eqb app].
    rewrite (cond_rest_spec s d (id_of s (c_id c)) (c_elsifs c) (c_else c) (c_end c) true 1 0) by (try assumption; lia).
    destruct (c_else c) as [[[a b] e]|]; reflexivity.
  - cbn [Nat.eqb app].
    change (push_all (c_body c :: ?r) ?y) with (push_all r (skip_push (c_body c) y)).
    rewrite (cond_rest_spec s d (id_of s (c_id c)) (c_elsifs c) (c_else c) (c_end c) false 1
               (S (first_true (map (fun e => def_contains d (id_of s (e_id e))) (c_elsifs c)))))
      by (try assumption; lia).
    destruct (c_else c) as [[[a b] e]|]; reflexivity.
Qed.

(* ------------------------------------------------------------------ `include path resolution *)
Lemma resolve_path_spec c p :
  resolve_path c p =
  if negb (is_relative p) || fs_exists c p then p
  else match find (fun i => fs_exists c (path_join i p)) (cfg_incs c) with
       | Some i => path_join i p
       | None => p
       end.
Proof. unfold resolve_path. destruct (is_relative p), (fs_exists c p); reflexivity. Qed.

Lemma find_first {A} (f : A -> bool) l x :
  find f l = Some x -> exists pre post, l = pre ++ x :: post /\ f x = true /\ Forall (fun y => f y = false) pre.
Proof.
  induction l as [|y l IH]; cbn; [easy|]. destruct (f y) eqn:E.
  - intros [= ->]. exists [], l. auto.
  - intros H. destruct (IH H) as (pre & post & -> & Hx & Hp). exists (y :: pre), post. auto.
Qed.
