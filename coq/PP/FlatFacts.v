(* C06: on a pp tree that consists only of text runs, comments, string literals and escaped
   identifiers (no compiler directive), the event loop copies every item once, in order, with
   its own source range.  Proofs only. *)
From SV Require Import Eval EvalFacts.
From Coq Require Import Lia PeanoNat Arith.

(* the four directive-free shapes of SourceDescription *)
Definition item_kind_ok (k : N) : bool :=
  (k =? K_SourceDescriptionNotDirective) || (k =? K_Comment) || (k =? K_StringLiteral) || (k =? K_EscapedIdentifier).

Definition flat_item (k : N) (l : loc) : tree := Node K_SourceDescription [Node k [Leaf l]].

Definition flat_tree (kroot : N) (its : list (N * loc)) : tree :=
  Node kroot (map (fun kl => flat_item (fst kl) (snd kl)) its).

(* loop invariant on directive-free input *)
Definition quiet (x : st) : Prop :=
  s_skip x = false /\ s_skipws x = false /\ s_nodes x = [] /\ s_inc x = None.

Definition emit_loc (s : bytes) (p : path) (l : loc) (x : st) : st :=
  emit (lstr s l) (Some (p, lrange l)) x.

Lemma node_locate_single k l : node_locate (Node k [Leaf l]) = ROk l.
Proof. unfold node_locate. cbn. destruct l; reflexivity. Qed.

Lemma node_locate_sd k l : node_locate (Node K_SourceDescription [Node k [Leaf l]]) = ROk l.
Proof. unfold node_locate. cbn. destruct l; reflexivity. Qed.

Section Flat.
(* resolve depth 0: the text of a file or of the caller's string, not the expansion of a macro body
   (there a one-line comment that reaches the end of the text is closed by a newline) *)
Variables (c : cfg) (rec : rec_t) (s : bytes) (p : path) (ignore : bool) (idp : N).
Let f := step c rec s p ignore false 0 idp.

Lemma item_events k l x :
  item_kind_ok k = true -> quiet x ->
  exists x', run_events f (events (flat_item k l)) x = ROk x' /\ quiet x' /\
             s_defs x' = s_defs x /\
             s_out x' = lstr s l :: s_out x /\
             s_ops x' = Push (blen (lstr s l)) (Some (p, lrange l)) :: s_ops x.
Proof.
  intros Hk (Q1 & Q2 & Q3 & Q4).
  destruct x as [sk sw nodes defs item inc out ops]. cbn in Q1, Q2, Q3, Q4. subst.
  unfold item_kind_ok in Hk.
  destruct (k =? K_SourceDescriptionNotDirective) eqn:E1;
  [apply N.eqb_eq in E1; subst k|
   destruct (k =? K_Comment) eqn:E2;
   [apply N.eqb_eq in E2; subst k|
    destruct (k =? K_StringLiteral) eqn:E3;
    [apply N.eqb_eq in E3; subst k|
     destruct (k =? K_EscapedIdentifier) eqn:E4; [apply N.eqb_eq in E4; subst k|discriminate]]]].
  - (* text run *)
    destruct (trim (lstr s l)) eqn:T.
    + eexists. split.
      { cbn [events flat_item app run_events]. unfold f, step, skip_contains. cbn [s_nodes existsb s_skip set_skip].
        unfold step2, step3. cbn [kind children]. cbn [N.eqb Pos.eqb orb andb bind is_kept_kind is_ws_kind N.leb N.compare Pos.compare Pos.compare_cont].
        rewrite !node_locate_single. cbn [bind s_inc]. unfold emit_node. rewrite !node_locate_single. cbn [bind].
        cbn [N.eqb Pos.eqb orb andb bind]. rewrite T. reflexivity. }
      cbn. unfold quiet. cbn. auto.
    + eexists. split.
      { cbn [events flat_item app run_events]. unfold f, step, skip_contains. cbn [s_nodes existsb s_skip set_skip].
        unfold step2, step3. cbn [kind children]. cbn [N.eqb Pos.eqb orb andb bind is_kept_kind is_ws_kind N.leb N.compare Pos.compare Pos.compare_cont].
        rewrite !node_locate_single. cbn [bind s_inc]. unfold emit_node. rewrite !node_locate_single. cbn [bind].
        cbn [N.eqb Pos.eqb orb andb bind]. rewrite T. reflexivity. }
      cbn. unfold quiet. cbn. auto.
  - (* comment *)
    eexists. split.
    { cbn [events flat_item app run_events]. unfold f, step, skip_contains. cbn [s_nodes existsb s_skip set_skip].
      unfold step2, step3. cbn [kind children]. cbn [N.eqb Pos.eqb orb andb bind is_kept_kind is_ws_kind N.leb N.compare Pos.compare Pos.compare_cont negb].
      unfold emit_node. rewrite !node_locate_single. cbn [bind]. reflexivity. }
    cbn. unfold quiet. cbn. auto.
  - (* string literal *)
    eexists. split.
    { cbn [events flat_item app run_events]. unfold f, step, skip_contains. cbn [s_nodes existsb s_skip set_skip].
      unfold step2, step3. cbn [kind children]. cbn [N.eqb Pos.eqb orb andb bind is_kept_kind is_ws_kind N.leb N.compare Pos.compare Pos.compare_cont negb].
      unfold emit_node. rewrite !node_locate_single. cbn [bind]. reflexivity. }
    cbn. unfold quiet. cbn. auto.
  - (* escaped identifier *)
    eexists. split.
    { cbn [events flat_item app run_events]. unfold f, step, skip_contains. cbn [s_nodes existsb s_skip set_skip].
      unfold step2, step3. cbn [kind children]. cbn [N.eqb Pos.eqb orb andb bind is_kept_kind is_ws_kind N.leb N.compare Pos.compare Pos.compare_cont negb].
      unfold emit_node. rewrite !node_locate_single. cbn [bind]. reflexivity. }
    cbn. unfold quiet. cbn. auto.
Qed.

Lemma run_events_app g a b x :
  run_events g (a ++ b) x = bind (run_events g a x) (run_events g b).
Proof.
  revert x; induction a as [|e a IH]; intros x; cbn [app run_events]; [reflexivity|].
  destruct (g e x); cbn [bind]; auto.
Qed.

Definition go_events : list tree -> list ev :=
  fix go (l : list tree) : list ev := match l with [] => [] | x :: r => events x ++ go r end.

Lemma items_events its : forall x,
  Forall (fun kl => item_kind_ok (fst kl) = true) its -> quiet x ->
  exists x', run_events f (go_events (map (fun kl => flat_item (fst kl) (snd kl)) its)) x = ROk x' /\ quiet x' /\
             s_defs x' = s_defs x /\
             s_out x' = rev (map (fun kl => lstr s (snd kl)) its) ++ s_out x /\
             s_ops x' = rev (map (fun kl => Push (blen (lstr s (snd kl))) (Some (p, lrange (snd kl)))) its) ++ s_ops x.
Proof.
  induction its as [|[k l] its IH]; intros x Hk Q.
  - exists x. cbn. auto.
  - inversion Hk as [|? ? Hk1 Hk2]; subst. cbn [map go_events fst snd].
    destruct (item_events k l x Hk1 Q) as (x1 & R1 & Q1 & D1 & O1 & P1).
    destruct (IH x1 Hk2 Q1) as (x2 & R2 & Q2 & D2 & O2 & P2).
    exists x2. rewrite run_events_app, R1. cbn [bind]. rewrite R2. split; [reflexivity|].
    split; [assumption|]. split; [congruence|]. cbn [map rev fst snd]. rewrite <- !app_assoc. cbn [app].
    split; congruence.
Qed.

(* root: a node whose kind has no arm in the loop (PreprocessorText) *)
Definition inert_kind (k : N) : Prop := (1000 <= k)%N.

Lemma inert_step k cs x e :
  inert_kind k -> quiet x -> (e = Enter (Node k cs) \/ e = Leave (Node k cs)) -> f e x = ROk x.
Proof.
  intros Hk (Q1 & Q2 & Q3 & Q4) He. unfold inert_kind in Hk.
  destruct x as [sk sw nodes defs item inc out ops]. cbn in Q1, Q2, Q3, Q4. subst.
  assert (forall n, (n < 1000)%N -> (k =? n) = false) as NE by (intros n Hn; apply N.eqb_neq; lia).
  assert (is_kept_kind k = false) as KK by (unfold is_kept_kind; apply andb_false_iff; right; apply N.leb_gt; lia).
  assert (is_ws_kind k = false) as KW by (unfold is_ws_kind; apply andb_false_iff; right; apply N.leb_gt; lia).
  destruct He as [-> | ->]; unfold f, step, skip_contains; cbn [s_nodes existsb s_skip set_skip];
    unfold step2, step3, str_or_esc; cbn [kind]; rewrite ?KK, ?KW, !NE by (vm_compute; reflexivity); reflexivity.
Qed.

Theorem flat_identity kroot its d :
  inert_kind kroot ->
  Forall (fun kl => item_kind_ok (fst kl) = true) its ->
  exists x', run_events f (events (flat_tree kroot its)) (st0 d) = ROk x' /\
             s_defs x' = d /\
             out_text x' = concat_bytes (map (fun kl => lstr s (snd kl)) its) /\
             out_ops x' = map (fun kl => Push (blen (lstr s (snd kl))) (Some (p, lrange (snd kl)))) its.
Proof.
  intros Hr Hk. unfold flat_tree.
  assert (Q0 : quiet (st0 d)) by (unfold quiet; cbn; auto).
  destruct (items_events its (st0 d) Hk Q0) as (x1 & R1 & Q1 & D1 & O1 & P1).
  exists x1. split.
  - cbn [events]. cbn [app run_events]. rewrite (inert_step kroot _ (st0 d) _ Hr Q0 (or_introl eq_refl)). cbn [bind].
    change ((fix go (l : list tree) : list ev := match l with [] => [] | x :: r => events x ++ go r end)
              (map (fun kl => flat_item (fst kl) (snd kl)) its))
      with (go_events (map (fun kl => flat_item (fst kl) (snd kl)) its)).
    rewrite run_events_app, R1. cbn [bind run_events].
    rewrite (inert_step kroot _ x1 _ Hr Q1 (or_intror eq_refl)). reflexivity.
  - split; [exact D1|]. unfold out_text, out_ops. rewrite O1, P1. cbn [s_out s_ops st0].
    rewrite !app_nil_r, !rev_involutive. auto.
Qed.
End Flat.

(* leaves that tile the text: each starts where the previous ends, from 0 to the end *)
Fixpoint tiles_from (o : N) (ls : list loc) (total : N) : Prop :=
  match ls with
  | [] => o = total
  | l :: r => l_off l = o /\ tiles_from (o + l_len l) r total
  end.

Lemma skipn_skipn' {A} (l : list A) : forall b a, skipn a (skipn b l) = skipn (b + a) l.
Proof.
  induction l as [|x l IH]; intros b a.
  - now rewrite !skipn_nil.
  - destruct b as [|b]; [reflexivity|]. cbn [skipn Nat.add]. apply IH.
Qed.

Lemma slice_concat_tiles s : forall ls o,
  tiles_from o ls (blen s) ->
  concat_bytes (map (lstr s) ls) = skipn (N.to_nat o) s.
Proof.
  induction ls as [|l ls IH]; intros o H; cbn [map concat_bytes].
  - cbn in H. subst o. unfold blen. rewrite Nat2N.id. now rewrite skipn_all.
  - destruct H as [H1 H2]. rewrite (IH _ H2). unfold lstr, slice. rewrite H1.
    rewrite N2Nat.inj_add.
    rewrite <- (firstn_skipn (N.to_nat (l_len l)) (skipn (N.to_nat o) s)) at 2.
    f_equal. rewrite skipn_skipn'. reflexivity.
Qed.

Corollary tiles_text s ls : tiles_from 0 ls (blen s) -> concat_bytes (map (lstr s) ls) = s.
Proof. intros H. now rewrite (slice_concat_tiles s ls 0 H). Qed.

(* ------------------------------------------------------------------ origins of the identity *)
From SV Require Import OriginFacts.

Definition push_of (s : bytes) (p : path) (l : loc) : op := Push (blen (lstr s l)) (Some (p, lrange l)).

Lemma blen_slice s off len : off + len <= blen s -> blen (slice s off len) = len.
Proof.
  unfold blen, slice. intros H. rewrite firstn_length, skipn_length. lia.
Qed.

Lemma tiles_from_le ls : forall o total, tiles_from o ls total -> o <= total.
Proof.
  induction ls as [|l ls IH]; intros o total H; cbn in H; [lia|].
  destruct H as [_ H]. apply IH in H. lia.
Qed.

Lemma oplen_tiles s p ls : forall o,
  tiles_from o ls (blen s) -> oplen (Merge (map (push_of s p) ls)) = blen s - o.
Proof.
  induction ls as [|l ls IH]; intros o H.
  - cbn in H. subst. cbn. lia.
  - destruct H as [H1 H2]. pose proof (tiles_from_le _ _ _ H2) as Hle.
    assert (Hb : blen (lstr s l) = l_len l) by (unfold lstr; apply blen_slice; lia).
    specialize (IH _ H2). cbn [map oplen push_of] in IH |- *. rewrite Hb, IH. lia.
Qed.

Lemma prov_tiles s p ls : forall o i,
  tiles_from o ls (blen s) -> i < blen s - o ->
  prov_at (Merge (map (push_of s p) ls)) i = OSome p (o + i).
Proof.
  induction ls as [|l ls IH]; intros o i H Hi.
  - cbn in H. lia.
  - destruct H as [H1 H2]. pose proof (tiles_from_le _ _ _ H2) as Hle.
    assert (Hb : blen (lstr s l) = l_len l) by (unfold lstr; apply blen_slice; lia).
    cbn [map prov_at oplen push_of]. rewrite Hb.
    destruct (N.ltb_spec i (l_len l)).
    + cbn [lrange rb]. f_equal. lia.
    + pose proof (IH (o + l_len l) (i - l_len l) H2 ltac:(lia)) as E1.
      cbn [prov_at map] in E1. rewrite E1. f_equal. lia.
Qed.
