(* C03: where the event loop copies source text it records exactly the range it copied.  Every arm of
   the third match that emits a node's own text does so through emit_node, which pushes the slice
   [l_off, l_off + l_len) of the source together with that very range of that very file; synthesised
   text (`__FILE__, `__LINE__) is pushed without origin; a macro expansion with the origin of the
   definition's text.  Proofs only. *)
From SV Require Import Eval EvalFacts Origin OriginFacts IncludeFacts.
From Coq Require Import Lia.

Lemma emit_node_copies s p t x x' :
  emit_node s p t x = ROk x' ->
  exists l, node_locate t = ROk l /\
            s_out x' = lstr s l :: s_out x /\
            s_ops x' = Push (blen (lstr s l)) (Some (p, lrange l)) :: s_ops x /\
            s_defs x' = s_defs x /\ s_nodes x' = s_nodes x /\ s_skip x' = s_skip x.
Proof.
  unfold emit_node. destruct (node_locate t) as [l| | | |]; cbn [bind]; try discriminate.
  intros [= <-]. exists l. cbn. auto 10.
Qed.

(* the provenance of a copied chunk: byte k of the chunk comes from byte l_off + k of file p *)
Lemma copied_chunk_provenance p l n k :
  (k < n)%N -> prov_at (Push n (Some (p, lrange l))) k = OSome p (k + l_off l).
Proof. intros _. reflexivity. Qed.

Lemma synthesised_chunk_provenance n k : prov_at (Push n None) k = ONone.
Proof. reflexivity. Qed.

(* a macro expansion is attributed to the file of the definition, at an offset not before its text *)
Lemma expansion_chunk_provenance p r n k :
  exists o, prov_at (Push n (Some (p, r))) k = OSome p o /\ (rb r <= o)%N.
Proof. exists (k + rb r)%N. split; [reflexivity|lia]. Qed.

Section Sites.
Variables (c : cfg) (rec : rec_t) (s : bytes) (p : path) (ignore strip : bool) (rdepth idepth : N).

Definition copies (t u : tree) (x x' : st) : Prop :=
  exists l, node_locate u = ROk l /\ s_out x' = lstr s l :: s_out x /\
            s_ops x' = Push (blen (lstr s l)) (Some (p, lrange l)) :: s_ops x.

(* ordinary text *)
Lemma site_text t x x' :
  kind t = K_SourceDescriptionNotDirective ->
  step3 c rec s p ignore strip rdepth idepth (Enter t) x = ROk x' -> copies t t x x'.
Proof.
  intros Hk H. unfold step3 in H. rewrite Hk in H. change (K_SourceDescriptionNotDirective =? K_SourceDescriptionNotDirective) with true in H.
  destruct (emit_node_copies _ _ _ _ _ H) as (l & A & B & C & _). exists l. auto.
Qed.

(* string literals and escaped identifiers *)
Lemma site_string t ch x x' :
  kind t = K_SourceDescription -> children t = [ch] ->
  (kind ch =? K_StringLiteral) || (kind ch =? K_EscapedIdentifier) = true ->
  step3 c rec s p ignore strip rdepth idepth (Enter t) x = ROk x' -> copies t ch x x'.
Proof.
  intros Hk Hc Hs H. unfold step3 in H. rewrite Hk, Hc, Hs in H.
  change (K_SourceDescription =? K_SourceDescriptionNotDirective) with false in H.
  change (K_SourceDescription =? K_SourceDescription) with true in H.
  destruct (emit_node_copies _ _ _ _ _ H) as (l & A & B & C & _). exists l. auto.
Qed.

(* compiler directives that are kept in the output *)
Lemma site_kept t x x' :
  is_kept_kind (kind t) = true ->
  step3 c rec s p ignore strip rdepth idepth (Enter t) x = ROk x' ->
  exists x1, copies t t x x1 /\ x' = set_skipws true x1.
Proof.
  intros Hk H. unfold step3 in H.
  assert (E1 : (kind t =? K_SourceDescriptionNotDirective) = false).
  { unfold is_kept_kind in Hk. apply andb_true_iff in Hk as [A B]. apply N.leb_le in A. apply N.eqb_neq. unfold K_SourceDescriptionNotDirective. lia. }
  assert (E2 : (kind t =? K_SourceDescription) = false).
  { unfold is_kept_kind in Hk. apply andb_true_iff in Hk as [A B]. apply N.leb_le in A. apply N.eqb_neq. unfold K_SourceDescription. lia. }
  rewrite E1, E2, Hk in H.
  destruct (emit_node s p t x) as [x1| | | |] eqn:E; cbn [bind] in H; try discriminate.
  injection H as <-. exists x1. split; [|reflexivity].
  destruct (emit_node_copies _ _ _ _ _ E) as (l & A & B & C & _). exists l. auto.
Qed.

(* white space *)
Lemma site_blank t x x' :
  kind t = K_WhiteSpace_Space -> s_skipws x = false ->
  step3 c rec s p ignore strip rdepth idepth (Enter t) x = ROk x' -> copies t t x x'.
Proof.
  intros Hk Hw H. unfold step3 in H. rewrite Hk, Hw in H.
  change (K_WhiteSpace_Space =? K_SourceDescriptionNotDirective) with false in H.
  change (K_WhiteSpace_Space =? K_SourceDescription) with false in H.
  change (is_kept_kind K_WhiteSpace_Space) with false in H.
  change (K_WhiteSpace_Space =? K_UndefineCompilerDirective) with false in H.
  change (K_WhiteSpace_Space =? K_UndefineallCompilerDirective) with false in H.
  change (K_WhiteSpace_Space =? K_IfdefDirective) with false in H.
  change (K_WhiteSpace_Space =? K_IfndefDirective) with false in H.
  change (is_ws_kind K_WhiteSpace_Space) with true in H.
  change (K_WhiteSpace_Space =? K_WhiteSpace_Space) with true in H. cbn [negb andb] in H.
  destruct (emit_node_copies _ _ _ _ _ H) as (l & A & B & C & _). exists l. auto.
Qed.

(* comments, when they are not stripped and the text is not a macro expansion *)
Lemma site_comment t x x' :
  kind t = K_Comment ->
  step3 c rec s p ignore false 0 idepth (Enter t) x = ROk x' -> copies t t x x'.
Proof.
  intros Hk H. unfold step3 in H. rewrite Hk in H.
  change (K_Comment =? K_SourceDescriptionNotDirective) with false in H.
  change (K_Comment =? K_SourceDescription) with false in H.
  change (is_kept_kind K_Comment) with false in H.
  change (K_Comment =? K_UndefineCompilerDirective) with false in H.
  change (K_Comment =? K_UndefineallCompilerDirective) with false in H.
  change (K_Comment =? K_IfdefDirective) with false in H.
  change (K_Comment =? K_IfndefDirective) with false in H.
  change (is_ws_kind K_Comment) with false in H.
  change (K_Comment =? K_Comment) with true in H. cbn [negb] in H.
  destruct (node_locate t) as [l| | | |] eqn:E; cbn [bind] in H; try discriminate.
  change (0 <? 0) with false in H. cbn [andb] in H. injection H as <-. exists l. cbn. auto.
Qed.

(* `__FILE__ / `__LINE__: no origin *)
Lemma site_position t x x' :
  position_enter s p t x = ROk x' ->
  s_out x' = s_out x \/ exists text, s_out x' = text :: s_out x /\ s_ops x' = Push (blen text) None :: s_ops x.
Proof.
  unfold position_enter. set (y := set_skip true (skip_push t x)).
  assert (Hy : s_out y = s_out x /\ s_ops y = s_ops x).
  { unfold y. destruct (skip_push_fields t x) as (_ & A & B & _). split; [exact A|exact B]. }
  destruct Hy as [Ho Hp].
  destruct (children t) as [|a [|kw [|? ?]]]; try discriminate.
  destruct (node_locate kw) as [l| | | |]; cbn [bind]; try discriminate.
  destruct (starts_with s_FILE (lstr s l)).
  { intros [= <-]. right. eexists. rewrite <- Ho, <- Hp. split; reflexivity. }
  destruct (starts_with s_LINE (lstr s l)).
  { intros [= <-]. right. eexists. rewrite <- Ho, <- Hp. split; reflexivity. }
  intros [= <-]. left. exact Ho.
Qed.
End Sites.
