(* C05: split_text on plain macro bodies (no quote, slash, backslash, backtick) cuts the body into
   its maximal runs of identifier / non-identifier characters, so formal arguments are substituted
   as whole words only.  Proofs only. *)
From SV Require Import Eval.
From Coq Require Import Lia.

Definition is_ident (c : N) : bool := is_alnum c || (c =? 95).
Definition plain (c : N) : bool := negb ((c =? 34) || (c =? 47) || (c =? 92) || (c =? 96)).

(* maximal runs by character class; [cur] is the run being collected (reversed), [cls] its class *)
Fixpoint runs_aux (cur : bytes) (cls : bool) (s : bytes) : list bytes :=
  match s with
  | [] => [rev cur]
  | c :: r => if Bool.eqb (is_ident c) cls then runs_aux (c :: cur) cls r
              else rev cur :: runs_aux [c] (is_ident c) r
  end.
Definition runs (s : bytes) : list bytes := runs_aux [] false s.

(* the flags split_text keeps while it reads plain characters after the leading blanks *)
Definition calm (t : sp) : Prop :=
  sp_string t = false /\ sp_comment t = false /\ sp_bq t = false /\ sp_lead t = false /\ sp_block t = false.

Lemma plain_neq c : plain c = true -> (c =? 34) = false /\ (c =? 47) = false /\ (c =? 92) = false /\ (c =? 96) = false.
Proof.
  unfold plain. intros H. apply negb_true_iff in H.
  apply orb_false_iff in H as [H H4]. apply orb_false_iff in H as [H H3]. apply orb_false_iff in H as [H1 H2]. auto.
Qed.

Lemma sp_main_plain c pk t :
  plain c = true -> calm t ->
  let t' := sp_main c pk t in
  calm t' /\ sp_ident t' = is_ident c /\
  (if Bool.eqb (is_ident c) (sp_ident t)
   then sp_x t' = c :: sp_x t /\ sp_ret t' = sp_ret t
   else sp_x t' = [c] /\ sp_ret t' = rev (sp_x t) :: sp_ret t).
Proof.
  intros Hp (C1 & C2 & C3 & C4 & C5).
  destruct (plain_neq c Hp) as (N1 & N2 & N3 & N4).
  destruct t as [str idn cmt bq lead bs blk blen star esc x ret]. cbn in C1, C2, C3, C4, C5. subst.
  unfold sp_main. cbn [sp_block sp_string sp_comment sp_bq sp_ident sp_star sp_esc sp_blen sp_x sp_ret sp_lead sp_bs].
  rewrite N1, N2, N4. cbn [andb negb]. fold (is_ident c).
  destruct (Bool.eqb (is_ident c) idn) eqn:E.
  - unfold calm, sp_pushc. cbn. rewrite ?N4, ?andb_false_r. cbn. auto 10.
  - unfold calm, sp_pushc, sp_flush. cbn. rewrite ?N4, ?andb_false_r. cbn. auto 10.
Qed.

Lemma sp_step_calm c pk t : calm t -> sp_step c pk t = sp_main c pk t.
Proof. intros (_ & _ & _ & L & _). unfold sp_step. now rewrite L. Qed.

Lemma sp_step_calm' c r t : calm t ->
  sp_run r (sp_main c (match r with [] => None | p :: _ => Some p end) t) = sp_run (c :: r) t.
Proof. intros H. cbn [sp_run]. now rewrite sp_step_calm. Qed.

Lemma sp_run_plain s : forall t,
  forallb plain s = true -> calm t ->
  let t' := sp_run s t in
  rev (rev (sp_x t') :: sp_ret t') = rev (sp_ret t) ++ runs_aux (sp_x t) (sp_ident t) s.
Proof.
  induction s as [|c r IH]; intros t Hp Hc; cbn [sp_run runs_aux].
  - cbn [rev]. reflexivity.
  - cbn [forallb] in Hp. apply andb_true_iff in Hp as [Hc1 Hr].
    rewrite sp_step_calm by assumption.
    destruct (sp_main_plain c (match r with [] => None | p :: _ => Some p end) t Hc1 Hc) as (Hc' & Hi & Hx).
    specialize (IH _ Hr Hc'). cbv zeta in IH. rewrite IH, Hi.
    destruct (Bool.eqb (is_ident c) (sp_ident t)) eqn:E.
    + destruct Hx as [-> ->]. apply Bool.eqb_prop in E. now rewrite E.
    + destruct Hx as [-> ->]. cbn [rev]. now rewrite <- app_assoc.
Qed.

(* the leading mode: blanks before the first character of the body are dropped *)
Definition leading (t : sp) : Prop :=
  sp_lead t = true /\ sp_bs t = false /\ sp_string t = false /\ sp_comment t = false /\ sp_bq t = false /\ sp_block t = false.

Lemma sp_run_lead s : forall t,
  forallb plain s = true -> leading t ->
  let t' := sp_run s t in
  rev (rev (sp_x t') :: sp_ret t') = rev (sp_ret t) ++ runs_aux (sp_x t) (sp_ident t) (drop_while is_ascii_ws s).
Proof.
  induction s as [|c r IH]; intros t Hp HL.
  - cbn. reflexivity.
  - cbn [forallb] in Hp. apply andb_true_iff in Hp as [Hc Hr].
    destruct (plain_neq c Hc) as (_ & _ & N3 & _).
    destruct HL as (L & BS & S & C & B & K).
    cbn [drop_while sp_run]. destruct (is_ascii_ws c) eqn:W.
    + assert (E : sp_step c (match r with [] => None | p :: _ => Some p end) t =
                  mkSp (sp_string t) (sp_ident t) (sp_comment t) (sp_bq t) true false (sp_block t) (sp_blen t)
                       (sp_star t) (sp_esc t) (sp_x t) (sp_ret t)).
      { unfold sp_step. rewrite L, N3, W, BS. reflexivity. }
      rewrite E. cbv zeta in IH. rewrite IH; [reflexivity|assumption|].
      unfold leading. cbn. auto 10.
    + (* the first character of the body: from here on the machine is calm *)
      assert (E : sp_step c (match r with [] => None | p :: _ => Some p end) t =
                  sp_main c (match r with [] => None | p :: _ => Some p end) t).
      { unfold sp_step. rewrite L, N3, W. reflexivity. }
      rewrite E.
      (* sp_main only looks at sp_lead to clear it: same result as from the calm twin of t *)
      set (t0 := mkSp (sp_string t) (sp_ident t) (sp_comment t) (sp_bq t) false (sp_bs t) (sp_block t) (sp_blen t) (sp_star t) (sp_esc t) (sp_x t) (sp_ret t)).
      assert (E0 : sp_main c (match r with [] => None | p :: _ => Some p end) t =
                   sp_main c (match r with [] => None | p :: _ => Some p end) t0) by (destruct t; reflexivity).
      rewrite E0.
      assert (C0 : calm t0) by (unfold calm, t0; cbn; auto).
      change (sp_run r (sp_main c (match r with [] => None | p :: _ => Some p end) t0))
        with (sp_run (c :: r) t0) at 1 2.
      pose proof (sp_run_plain (c :: r) t0) as H. cbv zeta in H.
      rewrite H; [reflexivity| |assumption]. cbn [forallb]. now rewrite Hc, Hr.
Qed.

Theorem split_text_plain s :
  forallb plain s = true -> split_text s = runs (drop_while is_ascii_ws s).
Proof.
  intros Hp. unfold split_text, runs.
  pose proof (sp_run_lead s (mkSp false false false false true false false 0 false false [] []) Hp) as H.
  cbv zeta in H. rewrite H; [reflexivity|]. unfold leading. cbn. auto 10.
Qed.

(* every piece of a plain body is plain *)
Lemma runs_aux_plain s : forall cur cls,
  forallb plain s = true -> forallb plain cur = true ->
  Forall (fun w => forallb plain w = true) (runs_aux cur cls s).
Proof.
  induction s as [|c r IH]; intros cur cls Hs Hc; cbn [runs_aux].
  - constructor; [|constructor]. rewrite forallb_forall in *. intros x Hx. apply Hc. now apply in_rev.
  - cbn [forallb] in Hs. apply andb_true_iff in Hs as [H1 H2].
    destruct (Bool.eqb (is_ident c) cls).
    + apply IH; [assumption|]. cbn [forallb]. now rewrite H1.
    + constructor.
      * rewrite forallb_forall in *. intros x Hx. apply Hc. now apply in_rev.
      * apply IH; [assumption|]. cbn [forallb]. now rewrite H1.
Qed.

Lemma drop_while_plain s : forallb plain s = true -> forallb plain (drop_while is_ascii_ws s) = true.
Proof.
  induction s as [|c r IH]; cbn [drop_while forallb]; [reflexivity|]. intros H.
  destruct (is_ascii_ws c); [apply andb_true_iff in H as [_ H]; auto|exact H].
Qed.

(* str::replace with a pattern whose first character does not occur changes nothing *)
Lemma replace_fuel_absent fuel p ps rep : forall s,
  forallb (fun c => negb (c =? p)) s = true -> replace_fuel fuel (p :: ps) rep s = s.
Proof.
  induction fuel as [|f IH]; intros s H; cbn [replace_fuel]; [reflexivity|].
  destruct s as [|c r]; [reflexivity|]. cbn [forallb] in H. apply andb_true_iff in H as [H1 H2].
  cbn [starts_with]. apply negb_true_iff in H1. rewrite N.eqb_sym in H1. rewrite H1. cbn [andb].
  f_equal. now apply IH.
Qed.

Lemma replace_all_absent p ps rep s :
  forallb (fun c => negb (c =? p)) s = true -> replace_all (p :: ps) rep s = s.
Proof. intros H. unfold replace_all. now apply replace_fuel_absent. Qed.

Lemma plain_no c : plain c = true -> negb (c =? 92) = true /\ negb (c =? 96) = true.
Proof. intros H. destruct (plain_neq c H) as (_ & _ & A & B). now rewrite A, B. Qed.

Lemma six_replaces_plain w : forallb plain w = true -> six_replaces w = w.
Proof.
  intros H.
  assert (H92 : forallb (fun c => negb (c =? 92)) w = true).
  { rewrite forallb_forall in *. intros c Hc. now apply plain_no, H. }
  assert (H96 : forallb (fun c => negb (c =? 96)) w = true).
  { rewrite forallb_forall in *. intros c Hc. now apply plain_no, H. }
  unfold six_replaces.
  rewrite (replace_all_absent 96 [96] [] w H96).
  rewrite (replace_all_absent 96 [92; 96; 34] [92; 34] w H96).
  rewrite (replace_all_absent 96 [34] [34] w H96).
  rewrite (replace_all_absent 92 [10] [10] w H92).
  rewrite (replace_all_absent 92 [13; 10] [13; 10] w H92).
  now rewrite (replace_all_absent 92 [13] [13] w H92).
Qed.

Definition subst_word (m : list (bytes * bytes)) (w : bytes) : bytes :=
  match amap_get m w with Some v => v | None => w end.

(* Whole-word substitution: on a plain body every maximal identifier run that is the name of a
   formal is replaced by its value, every other run is copied, nothing else happens. *)
Theorem substitute_plain m body :
  forallb plain body = true ->
  substitute m body = concat_bytes (map (subst_word m) (runs (drop_while is_ascii_ws body))).
Proof.
  intros Hp. unfold substitute. rewrite split_text_plain by assumption.
  pose proof (runs_aux_plain (drop_while is_ascii_ws body) [] false (drop_while_plain _ Hp) eq_refl) as HF.
  fold (runs (drop_while is_ascii_ws body)) in HF.
  induction HF as [|w ws Hw _ IH]; cbn [map concat_bytes]; [reflexivity|].
  rewrite IH. f_equal. unfold subst_word. destruct (amap_get m w); [reflexivity|]. now apply six_replaces_plain.
Qed.
