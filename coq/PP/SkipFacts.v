(* C04: a subtree on the skip list stays without any effect while the loop walks it.
   [SkipCheck.skip_hyp_ok] is the executable form of the hypothesis, evaluated on the trees of
   every correspondence case.  Proofs only. *)
From SV Require Import Eval EvalFacts FlatFacts IterFacts SkipCheck.
From Coq Require Import Lia.

Section Skip.
Variables (c : cfg) (rec : rec_t) (s : bytes) (p : path) (ignore strip : bool) (rdepth idepth : N).
Notation stp := (step c rec s p ignore strip rdepth idepth).

Lemma skip_contains_set_skip b x t : skip_contains (set_skip b x) t = skip_contains x t.
Proof. reflexivity. Qed.

Lemma set_skip_idem b b' x : set_skip b (set_skip b' x) = set_skip b x.
Proof. reflexivity. Qed.

Lemma set_skip_same x : set_skip (s_skip x) x = x.
Proof. destruct x; reflexivity. Qed.

(* with skip on, an event of a node that is not listed changes nothing *)
Lemma step_skipped e x :
  s_skip x = true -> skip_contains x (ev_node e) = false -> stp e x = ROk x.
Proof.
  intros Hs Hc. unfold step. destruct e as [t|t]; cbn [ev_node] in Hc; rewrite Hc, Hs;
    rewrite <- Hs at 1; now rewrite set_skip_same.
Qed.

Lemma run_skipped : forall evs x,
  s_skip x = true -> (forall e, In e evs -> skip_contains x (ev_node e) = false) ->
  run_events stp evs x = ROk x.
Proof.
  induction evs as [|e r IH]; intros x Hs H; [reflexivity|]. cbn [run_events].
  rewrite step_skipped by (auto; apply H; now left). cbn [bind]. apply IH; [assumption|].
  intros e' He'. apply H. now right.
Qed.

Lemma ev_nodes_events t : forall e, In e (events t) -> In (ev_node e) (preorder t).
Proof.
  induction t as [l|k cs IH] using tree_ind2.
  - cbn. intros e [<-|[<-|[]]]; cbn; auto.
  - intros e He. rewrite events_eq in He. rewrite preorder_eq. cbn [children] in *.
    destruct He as [<-|He]; [now left|]. apply in_app_or in He as [He|[<-|[]]]; [|now left].
    right. apply in_flat_map in He as (ch & Hch & He). apply in_flat_map. exists ch. split; [assumption|].
    rewrite Forall_forall in IH. exact (IH ch Hch e He).
Qed.

Theorem skipped_no_effect t x :
  erasable x t = true -> run_events stp (events t) x = ROk x.
Proof.
  unfold erasable. intros H.
  apply andb_true_iff in H as [H Hd]. apply andb_true_iff in H as [H Hk].
  apply andb_true_iff in H as [Hc Hs]. apply negb_true_iff in Hs.
  rewrite events_eq. cbn [run_events].
  assert (E1 : stp (Enter t) x = ROk (set_skip true x)) by (unfold step; now rewrite Hc).
  rewrite E1. cbn [bind]. rewrite run_events_app.
  rewrite run_skipped.
  - cbn [bind run_events]. unfold step. rewrite skip_contains_set_skip, Hc, set_skip_idem.
    cbn [negb]. unfold leave_inert in Hk.
    apply andb_true_iff in Hk as [Hk K3]. apply andb_true_iff in Hk as [K1 K2].
    apply negb_true_iff in K1, K2, K3.
    unfold step2. rewrite K1, K2. cbn [bind]. unfold step3. rewrite K3.
    rewrite <- Hs. now rewrite set_skip_same.
  - reflexivity.
  - intros e He. rewrite skip_contains_set_skip.
    apply in_flat_map in He as (ch & Hch & He). apply ev_nodes_events in He.
    rewrite forallb_forall in Hd. apply negb_true_iff. apply Hd. unfold desc. apply in_flat_map. eauto.
Qed.

(* consecutive listed siblings: all of them are walked without effect *)
Corollary skipped_siblings ts x :
  forallb (erasable x) ts = true -> run_events stp (flat_map events ts) x = ROk x.
Proof.
  induction ts as [|t r IH]; intros H; [reflexivity|]. cbn [forallb] in H. apply andb_true_iff in H as [H1 H2].
  cbn [flat_map]. rewrite run_events_app, skipped_no_effect by assumption. cbn [bind]. now apply IH.
Qed.
End Skip.
