(* C09: the evaluator needs fuel only for the nesting of `include and of macro expansion, and the
   two depth counters bound that nesting: with fuel above (limit+1)*(limit+2)+limit+1 no call ever
   runs out of fuel, whatever the input.  Proofs only. *)
From SV Require Import Eval EvalFacts.
From Coq Require Import Lia PeanoNat Arith.

Definition nofuel {A} (r : res A) : Prop := match r with RFuel => False | _ => True end.

Lemma bind_nofuel {A B} (r : res A) (k : A -> res B) :
  nofuel r -> (forall a, r = ROk a -> nofuel (k a)) -> nofuel (bind r k).
Proof. destruct r; cbn; auto. Qed.

Ltac nf :=
  repeat match goal with
  | |- nofuel (ROk _) => exact I
  | |- nofuel (RErr _) => exact I
  | |- nofuel (RPanic _) => exact I
  | |- nofuel (RNeedParse _) => exact I
  | H : nofuel ?r |- nofuel ?r => exact H
  | |- nofuel (bind _ _) => apply bind_nofuel; [|intros ? ?]
  | |- nofuel (match ?x with _ => _ end) => destruct x eqn:?
  | |- nofuel (let '(_, _) := ?x in _) => destruct x eqn:?
  end.

Lemma node_locate_nofuel t : nofuel (node_locate t).
Proof. unfold node_locate. nf. Qed.

Lemma unwrap_id_nofuel t s : nofuel (unwrap_id t s).
Proof. unfold unwrap_id. nf. Qed.

Lemma emit_node_nofuel s p t x : nofuel (emit_node s p t x).
Proof. unfold emit_node. nf. apply node_locate_nofuel. Qed.

Lemma cond_rest_nofuel s d ifid : forall cs hit x, nofuel (cond_rest s d ifid hit cs x).
Proof.
  (* cond_rest recurses on a strict suffix: strong induction on the length *)
  intros cs. remember (length cs) as n eqn:Hn. revert cs Hn.
  induction n as [n IH] using lt_wf_ind. intros cs Hn hit x.
  destruct cs as [|a [|b [|t r]]]; cbn [cond_rest]; try exact I.
  destruct (kind t =? K_TextMacroIdentifier).
  - destruct r as [|body r']; [exact I|].
    apply bind_nofuel; [apply unwrap_id_nofuel|]. intros eid _.
    cbn in Hn.
    destruct hit; [|destruct (def_contains d eid || is_predefined ifid)];
      eapply IH; try reflexivity; lia.
  - destruct (kind t =? K_ElseGroupOfLines); exact I.
Qed.

Lemma cond_enter_nofuel neg s t x : nofuel (cond_enter neg s t x).
Proof.
  unfold cond_enter. destruct (children t) as [|a [|b [|i [|body rest]]]]; try exact I.
  apply bind_nofuel; [apply unwrap_id_nofuel|]. intros. apply cond_rest_nofuel.
Qed.

Lemma formal_of_nofuel s fa : nofuel (formal_of s fa).
Proof. unfold formal_of. nf. apply node_locate_nofuel. Qed.

Lemma formals_of_nofuel s cs : nofuel (formals_of s cs).
Proof.
  induction cs as [|t r IH]; cbn [formals_of]; [exact I|].
  destruct (kind t =? K_FormalArgument); [|exact IH].
  apply bind_nofuel; [apply formal_of_nofuel|]. intros. apply bind_nofuel; [exact IH|]. intros. exact I.
Qed.

Lemma define_enter_nofuel s p t x : nofuel (define_enter s p t x).
Proof.
  unfold define_enter.
  destruct (children t) as [|a [|b [|proto text]]]; try exact I.
  destruct (children proto) as [|name args]; [exact I|].
  apply bind_nofuel; [apply unwrap_id_nofuel|]. intros id _.
  apply bind_nofuel; [|intros; apply emit_node_nofuel].
  destruct (is_predefined id); [exact I|].
  apply bind_nofuel.
  { destruct args as [|? [|lofa ?]]; try exact I. apply formals_of_nofuel. }
  intros. apply bind_nofuel; [|intros; exact I].
  destruct text; [exact I|]. apply bind_nofuel; [apply node_locate_nofuel|]. intros; exact I.
Qed.

Lemma position_enter_nofuel s p t x : nofuel (position_enter s p t x).
Proof. unfold position_enter. nf. apply node_locate_nofuel. Qed.

Lemma emit_ws_under_nofuel s p t x : nofuel (emit_ws_under s p t x).
Proof.
  unfold emit_ws_under. generalize (preorder t). intros l.
  assert (H : nofuel (ROk x : res st)) by exact I. revert H. generalize (ROk x : res st).
  induction l as [|n l IH]; intros acc Ha; cbn [fold_left]; [exact Ha|].
  apply IH. apply bind_nofuel; [exact Ha|]. intros a _.
  destruct (is_ws_kind (kind n)); [apply emit_node_nofuel|exact I].
Qed.

Lemma step2_nofuel s e x : nofuel (step2 s e x).
Proof. unfold step2. nf; apply node_locate_nofuel. Qed.

Section Rec.
Variables (c : cfg) (rec : rec_t).

(* what the loop at depths (rd, idp) may ask of [rec] *)
Definition rec_ok (rd idp : N) : Prop :=
  (forall s p d ig st, nofuel (rec s p d ig st 0 (idp + 1))) /\
  (cfg_limit c <? rd + 1 = false -> forall s p d ig st, nofuel (rec s p d ig st (rd + 1) idp)).

Lemma resolve_usage_nofuel x s p d ig st rdepth idp :
  (cfg_limit c <? rdepth = false -> forall s p d ig st, nofuel (rec s p d ig st rdepth idp)) ->
  nofuel (resolve_usage c rec x s p d ig st rdepth idp).
Proof.
  intros H. unfold resolve_usage.
  destruct (children x) as [|sym [|name rest]]; try exact I.
  apply bind_nofuel; [apply unwrap_id_nofuel|]. intros id _.
  destruct (cfg_limit c <? rdepth) eqn:EL; [exact I|].
  destruct (def_get d id) as [[df|]|]; try exact I.
  destruct (negb _ && _); [exact I|].
  destruct (bind_args _ _); [exact I|].
  destruct (d_text df) as [[body org]|]; [|exact I].
  apply bind_nofuel; [apply H; reflexivity|]. intros [[text o] nd] _. exact I.
Qed.

Lemma pp_file_nofuel f d ig st idp :
  (forall s p d ig st, nofuel (rec s p d ig st 0 idp)) -> nofuel (pp_file c rec f d ig st idp).
Proof. intros H. unfold pp_file. destruct (assoc f (cfg_fs c)) as [[b|]|]; try exact I. apply H. Qed.

Lemma include_enter_nofuel s p st rd idp t x :
  rec_ok rd idp -> nofuel (include_enter c rec s p st rd idp t x).
Proof.
  intros [H1 H2]. unfold include_enter.
  apply bind_nofuel; [apply node_locate_nofuel|]. intros l _.
  destruct (match s_item _ with Some i => i =? l_line l | None => false end); [exact I|].
  destruct (children t) as [|inner [|? ?]]; try exact I.
  destruct (children inner) as [|sym [|kw [|third [|? ?]]]]; try exact I.
  apply bind_nofuel.
  - destruct (kind inner =? K_IncludeCompilerDirectiveDoubleQuote); [destruct (first_leaf third); exact I|].
    destruct (kind inner =? K_IncludeCompilerDirectiveAngleBracket); [destruct (first_leaf third); exact I|].
    apply bind_nofuel; [apply resolve_usage_nofuel; exact H2|].
    intros [[[text o] nd]|] _; exact I.
  - intros [name x'] _.
    pose proof (pp_file_nofuel (resolve_path c name) (s_defs x') false st (idp + 1) H1) as HF.
    destruct (pp_file c rec (resolve_path c name) (s_defs x') false st (idp + 1)) as [[[text ops] nd]| | | |];
      cbn in HF |- *; auto.
Qed.

Lemma usage_enter_nofuel s p ig st rd idp t x :
  rec_ok rd idp -> nofuel (usage_enter c rec s p ig st rd idp t x).
Proof.
  intros [H1 H2]. unfold usage_enter.
  apply bind_nofuel; [apply resolve_usage_nofuel; exact H2|]. intros r _.
  destruct (children t) as [|a [|b [|c0 [|d0 [|e0 [|? ?]]]]]]; try exact I; apply emit_ws_under_nofuel.
Qed.

Lemma step3_nofuel s p ig st rd idp e x :
  rec_ok rd idp -> nofuel (step3 c rec s p ig st rd idp e x).
Proof.
  intros H. unfold step3. destruct e as [t|t].
  - repeat match goal with
    | |- nofuel (if ?b then _ else _) => destruct b
    | |- nofuel (match children ?t with _ => _ end) => destruct (children t) as [|? [|? [|? [|? ?]]]]
    | |- nofuel (match ?l with [] => _ | _ :: _ => _ end) => destruct l
    | |- nofuel (emit_node _ _ _ _) => apply emit_node_nofuel
    | |- nofuel (cond_enter _ _ _ _) => apply cond_enter_nofuel
    | |- nofuel (define_enter _ _ _ _) => apply define_enter_nofuel
    | |- nofuel (position_enter _ _ _ _) => apply position_enter_nofuel
    | |- nofuel (include_enter _ _ _ _ _ _ _ _ _) => apply include_enter_nofuel; exact H
    | |- nofuel (usage_enter _ _ _ _ _ _ _ _ _ _) => apply usage_enter_nofuel; exact H
    | |- nofuel (unwrap_id _ _) => apply unwrap_id_nofuel
    | |- nofuel (node_locate _) => apply node_locate_nofuel
    | |- nofuel (bind _ _) => apply bind_nofuel; [|intros ? ?]
    | |- nofuel (ROk _) => exact I
    | |- nofuel (RPanic _) => exact I
    end.
  - destruct (_ || _); exact I.
Qed.

Lemma step_nofuel s p ig st rd idp e x :
  rec_ok rd idp -> nofuel (step c rec s p ig st rd idp e x).
Proof.
  intros H. unfold step.
  match goal with |- nofuel (if ?b then _ else _) => destruct b end; [exact I|].
  apply bind_nofuel; [apply step2_nofuel|]. intros. apply step3_nofuel. exact H.
Qed.

Lemma run_events_nofuel g : (forall e x, nofuel (g e x)) -> forall evs x, nofuel (run_events g evs x).
Proof.
  intros H evs. induction evs as [|e r IH]; intros x; cbn [run_events]; [exact I|].
  apply bind_nofuel; [apply H|]. intros. apply IH.
Qed.

Lemma pp_str_body_nofuel s p pre ig st rd idp :
  (cfg_limit c <? idp = false -> rec_ok rd idp) ->
  nofuel (pp_str_body c rec s p pre ig st rd idp).
Proof.
  intros H. unfold pp_str_body.
  destruct (cfg_limit c <? idp) eqn:E; [exact I|].
  destruct (assoc s (cfg_parse c)) as [[t|pos]|]; try exact I.
  apply bind_nofuel; [|intros; exact I].
  apply run_events_nofuel. intros. apply step_nofuel. auto.
Qed.
End Rec.

(* the measure: include depth is the major component, resolve depth the minor one *)
Definition weight (L rd idp : N) : N := (L + 1 - idp) * (L + 2) + (L + 1 - N.min rd (L + 1)).

Theorem pp_str_total : forall fuel c s p pre ig st rd idp,
  (N.to_nat (weight (cfg_limit c) rd idp) < fuel)%nat ->
  nofuel (pp_str fuel c s p pre ig st rd idp).
Proof.
  induction fuel as [|f IH]; intros c s p pre ig st rd idp Hw; [lia|].
  cbn [pp_str]. apply pp_str_body_nofuel. intros HL. apply N.ltb_ge in HL.
  set (L := cfg_limit c) in *.
  assert (E1 : L + 1 - idp = (L - idp) + 1) by lia.
  split.
  - intros. apply IH. unfold weight in *. fold L.
    replace (L + 1 - (idp + 1)) with (L - idp) by lia.
    rewrite E1 in Hw. rewrite N.min_0_l. nia.
  - intros HR s' p' d' ig' st'. apply N.ltb_ge in HR. apply IH. unfold weight in *. fold L.
    rewrite (N.min_l (rd + 1)) by lia. rewrite (N.min_l rd) in Hw by lia. lia.
Qed.

(* the closed bound used by the entry points *)
Definition fuel_bound (L : N) : nat := S (N.to_nat ((L + 1) * (L + 2) + (L + 1))).

Lemma weight_le L rd idp : weight L rd idp <= (L + 1) * (L + 2) + (L + 1).
Proof. unfold weight. nia. Qed.

Corollary pp_str_never_out_of_fuel c s p pre ig st rd idp :
  nofuel (pp_str (fuel_bound (cfg_limit c)) c s p pre ig st rd idp).
Proof. apply pp_str_total. unfold fuel_bound. pose proof (weight_le (cfg_limit c) rd idp). lia. Qed.

Corollary preprocess_never_out_of_fuel c p pre st ig :
  nofuel (preprocess (fuel_bound (cfg_limit c)) c p pre st ig).
Proof.
  unfold preprocess. apply pp_file_nofuel. intros. apply pp_str_never_out_of_fuel.
Qed.
